/-
  C17 (API part) — orderings, `respect_ordering`, the guards of `OBDD(...)`, `==`, `restrict`, `variables()`, `&|^`.

  Property C17 ends with "… variables() is exactly the support reachable in the diagram; combining OBDDs with
  different orderings or a variable outside the ordering raises RuntimeError."  This file states, for the executable
  model of the public API (PMC/Model/BDDApi.lean, validated against the library by harness/checks/bdd_api.py),
  exactly when each exception class arises.

  Model: an ordering is the list of its variables; a hand-built diagram is a named tree `NBDD`; `toPos O t` is the
  positional diagram of PMC/Model/BDD.lean under `O`, about which C17.lean speaks (`Ord 0 (toPos O t)` = "respects").

  A variable that is not in the ordering (`foreign_variable_error_classes`): `respect_ordering`, `OBDD(node, ordering)`,
  `obdd == node` and `&`, `|`, `^` raise no exception class other than `RuntimeError` for it (it used to surface as
  `KeyError` from `ListOrdering.cmp` anywhere below the root; repaired in the library, `foreign_below_root_is_RuntimeError`)
  — except that the variable is not noticed when an edge that does not go forward is met first in traversal order
  (`respect_ordering` answers `False`, `OBDD(node, ordering)` / `obdd == node` raise `ValueError`: `foreign_unnoticed`).
  A terminal node always holds a `bool` (`terminal_holds_bool`): `BDDNode(1.0)` is accepted, denotes terminal 1, and
  the operators of `&`, `|`, `^` never raise on the values of terminals (`obdd_xor_terminals`).
-/
import PMC.Proofs.BDDApi
namespace PMC.C17
open PMC.BDD PMC.BDD.NBDD PMC.BDD.Ordering

/-! ### `ListOrdering` -/

/-- `ListOrdering(l)` succeeds exactly on the lists without repetition, and holds the variables of `l` in order -/
theorem ordering_make_ok_iff (l O : List String) : make l = .ok O ↔ l.Nodup ∧ O = l := make_ok_iff l O

/-- … and raises `RuntimeError` (nothing else) exactly on the lists with a repetition -/
theorem ordering_make_error_iff (l : List String) (e : Err) : make l = .error e ↔ ¬ l.Nodup ∧ e = .runtimeError :=
  make_error_iff l e

/-- `ListOrdering(l).get_list() == l` -/
theorem ordering_get_list (l O : List String) (h : make l = .ok O) : getList O = l := getList_make h

/-- `x in O` -/
theorem ordering_contains_iff (O : List String) (x : String) : contains O x = true ↔ x ∈ O := contains_iff

/-- `in_order(x, y)` ⇔ `position x < position y`; `RuntimeError` (nothing else) exactly when one of them is not in
    the ordering -/
theorem ordering_in_order_iff (O : List String) (x y : String) :
    inOrder O x y = .ok true ↔ ∃ i j, position O x = some i ∧ position O y = some j ∧ i < j := inOrder_true_iff

theorem ordering_in_order_error_iff (O : List String) (x y : String) (e : Err) :
    inOrder O x y = .error e ↔ (x ∉ O ∨ y ∉ O) ∧ e = .runtimeError := inOrder_error_iff

theorem ordering_cmp_error_iff (O : List String) (x y : String) (e : Err) :
    cmp O x y = .error e ↔ (x ∉ O ∨ y ∉ O) ∧ e = .runtimeError := cmp_error_iff

/-- `in_order` is a strict total order on the variables of the ordering -/
theorem ordering_strict_total (O : List String) :
    (∀ x, inOrder O x x ≠ .ok true) ∧
    (∀ x y z, inOrder O x y = .ok true → inOrder O y z = .ok true → inOrder O x z = .ok true) ∧
    (∀ x y, x ∈ O → y ∈ O → x ≠ y → inOrder O x y = .ok true ∨ inOrder O y x = .ok true) :=
  ⟨inOrder_irrefl O, fun _ _ _ => inOrder_trans, fun _ _ => inOrder_total⟩

/-- two `ListOrdering`s compare equal exactly when they hold the same variables at the same positions -/
theorem ordering_eq_iff (a b : List String) (ha : a.Nodup) (hb : b.Nodup) : eqv a b = true ↔ a = b := eqv_iff ha hb

/-- … and never equal anything else (`ordering == [..]`, `ordering == None` are `False`) -/
theorem ordering_eq_other (O : List String) (hO : O.Nodup) (v : PyVal) (hv : ∀ P, v = .ordering P → P.Nodup) :
    Ordering.eqPy O v = true ↔ v = .ordering O := eqPy_true_iff O hO v hv

/-! `str(ordering)` is the `repr` of the list of names; `str(obdd)` the lambda form -/
theorem ordering_str (O : List String) (h : O.Nodup) :
    Ordering.str O = "[" ++ ", ".intercalate (O.map pyRepr) ++ "]" := str_eq O h

theorem obdd_str (self : OBDDv) (O : List String) (hO : self.ordering = some O) (hn : O.Nodup) :
    self.toStr = (if O.isEmpty then "lambda" else "lambda " ++ ",".intercalate O) ++ ": " ++ self.root.printStr :=
  OBDDv.toStr_some self O hO hn

example : Ordering.str ["a", "b"] = "['a', 'b']" := by rw [str_eq _ (by decide)]; decide
example : Ordering.str [] = "[]" := by rw [str_eq _ (by decide)]; decide
example : Ordering.str ["it's", "q\"uote"] = "[\"it's\", 'q\"uote']" := by rw [str_eq _ (by decide)]; decide
example : (⟨node "a" (leaf false) (node "b" (leaf false) (leaf true)), some ["a", "b"]⟩ : OBDDv).toStr
    = "lambda a,b: a & b" := by rw [OBDDv.toStr_some _ _ rfl (by decide)]; decide
example : (⟨leaf true, some []⟩ : OBDDv).toStr = "lambda: 1" := by rw [OBDDv.toStr_some _ _ rfl (by decide)]; decide

/-! ### `respect_ordering` (with its `checked` memo set) -/

/-- **`node.respect_ordering(O)` is `True` exactly when every variable of the diagram is in `O` and the positional
    diagram is ordered** -/
theorem respect_ordering_true_iff (O : List String) (t : NBDD) :
    respectOrdering O t = .ok true ↔ (∀ v ∈ t.vars, v ∈ O) ∧ PMC.BDD.Ord 0 (toPos O t) := by
  rw [respectOrdering_eq]; exact respect_true_iff O t

/-- `False` only for diagrams that are not ordered -/
theorem respect_ordering_false (O : List String) (t : NBDD) (h : respectOrdering O t = .ok false) :
    ¬ PMC.BDD.Ord 0 (toPos O t) := by
  rw [respectOrdering_eq] at h; exact respect_false_not_ord O t h

/-- when all the variables are in the ordering nothing is raised -/
theorem respect_ordering_total (O : List String) (t : NBDD) (h : ∀ v ∈ t.vars, v ∈ O) :
    ∃ b, respectOrdering O t = .ok b ∧ (b = true ↔ PMC.BDD.Ord 0 (toPos O t)) := by
  rw [respectOrdering_eq]; exact respect_of_vars O t h

/-- **the outcome is decided by the FIRST defect in traversal order** (`defects O t` lists, for each node — itself,
    then the subdiagram `high`, then `low` — its variable when it is not in `O`, then for the edge to `low` and the edge
    to `high` the child's variable when it is not in `O`, or the edge when it does not go forward): no defect, `True`;
    a variable outside the ordering, `RuntimeError`; an edge that does not go forward, `False` -/
theorem respect_ordering_eq_first_defect (O : List String) (t : NBDD) :
    respectOrdering O t = Defect.outcome (defects O t).head? := by
  rw [respectOrdering_eq]; exact respect_eq_outcome O t

/-- the `foreign` defects are exactly the variables of the diagram that are not in the ordering -/
theorem foreign_defect_iff (O : List String) (t : NBDD) (w : String) :
    Defect.foreign w ∈ defects O t ↔ w ∈ t.vars ∧ w ∉ O :=
  ⟨foreign_mem_defects, fun h => foreign_defect_of_var h.1 h.2⟩

/-- a `backward` defect is an edge of the diagram between two variables of the ordering that does not go forward -/
theorem backward_defect (O : List String) (t : NBDD) (v w : String) (h : Defect.backward v w ∈ defects O t) :
    v ∈ t.vars ∧ w ∈ t.vars ∧ ∃ i j, position O v = some i ∧ position O w = some j ∧ j ≤ i := backward_mem_defects h

/-- **`RuntimeError` exactly when the traversal looks at a variable outside the ordering before it finds an edge that
    does not go forward** -/
theorem respect_ordering_runtimeError_iff (O : List String) (t : NBDD) :
    respectOrdering O t = .error .runtimeError ↔ ∃ w, (defects O t).head? = some (.foreign w) := by
  rw [respectOrdering_eq]; exact respect_runtimeError_iff O t

/-- `False` exactly when an edge that does not go forward comes first -/
theorem respect_ordering_false_iff (O : List String) (t : NBDD) :
    respectOrdering O t = .ok false ↔ ∃ v w, (defects O t).head? = some (.backward v w) := by
  rw [respectOrdering_eq]; exact respect_false_iff O t

/-- a ROOT variable outside the ordering always is the first defect -/
theorem respect_ordering_root (O : List String) (t : NBDD) (h : ¬ rootIn O t) :
    respectOrdering O t = .error .runtimeError := by
  rw [respectOrdering_eq]; exact respect_root_runtimeError O t h

/-- **`RuntimeError` is the only exception class**, and it needs a variable of the diagram outside the ordering -/
theorem respect_ordering_error (O : List String) (t : NBDD) (e : Err) (h : respectOrdering O t = .error e) :
    e = .runtimeError ∧ ∃ v ∈ t.vars, v ∉ O := by
  rw [respectOrdering_eq] at h; exact respect_error O t e h

/-- a diagram with a variable outside the ordering is never accepted: `RuntimeError`, or `False` -/
theorem respect_ordering_foreign (O : List String) (t : NBDD) (h : ∃ v ∈ t.vars, v ∉ O) :
    respectOrdering O t = .error .runtimeError ∨ respectOrdering O t = .ok false := by
  rw [respectOrdering_eq]; exact respect_foreign O t h

/-- REPAIRED (was `KeyError`): `BDDNode('a', 0, BDDNode('z', 0, 1)).respect_ordering(['a','b','c'])` raises
    `RuntimeError` -/
theorem foreign_below_root_is_RuntimeError :
    respectOrdering ["a", "b", "c"] (node "a" (leaf false) (node "z" (leaf false) (leaf true))) = .error .runtimeError := by
  decide

/-- FINDING (still there): … but is not noticed at all when an out-of-order edge is looked at first:
    `BDDNode('b', BDDNode('a', 0, 1), BDDNode('z', 0, 1))` answers `False` -/
theorem foreign_unnoticed :
    respectOrdering ["a", "b", "c"]
      (node "b" (node "a" (leaf false) (leaf true)) (node "z" (leaf false) (leaf true))) = .ok false := by
  decide

example : respectOrdering ["a", "b", "c"] (node "z" (leaf false) (leaf true)) = .error .runtimeError := by decide
example : respectOrdering ["a", "b", "c"] (node "a" (leaf false) (node "c" (leaf false) (leaf true))) = .ok true := by
  decide

/-! ### `BDDNode(...)` -/

/-- `BDDNode(*data)`: `RuntimeError` exactly for the arities other than 1 and 3 -/
theorem bddNode_arity (args : List PyVal) :
    BDDNode.new args = some (.error .runtimeError) ↔ args.length ≠ 1 ∧ args.length ≠ 3 := bddNode_runtimeError_iff args

/-- **a terminal node always holds a `bool`**: `BDDTerminalNode(v)` for an accepted `v` is the node of `bool(v)`, and
    its `.value` is that `bool` (so `1`, `True`, `1.0` give the same node with the same content, whichever comes first) -/
theorem terminal_holds_bool (v : PyVal) (t : NBDD) (h : terminal v = .ok t) :
    ∃ b, v.asBit = some b ∧ t = .leaf b ∧ t.value = some (.bool b) := terminal_value_bool v t h

/-- `BDDNode(1.0)` / `BDDNode(0.0)` are accepted and denote the terminals 1 / 0, holding `True` / `False` -/
theorem terminal_float_accepted :
    terminal (.float 1 false) = .ok (.leaf true) ∧ terminal (.float 0 false) = .ok (.leaf false) ∧
      (NBDD.leaf true).value = some (.bool true) ∧ (NBDD.leaf false).value = some (.bool false) := terminal_float

/-- `BDDNode(v)` / `BDDTerminalNode(v)`: `TypeError` exactly for the values that are not `==` to one of 0, 1, False, True -/
theorem terminal_typeError_iff (v : PyVal) (e : Err) :
    terminal v = .error e ↔ ¬ (v = .int 0 ∨ v = .int 1 ∨ (∃ b, v = .bool b) ∨ v = .float 0 false ∨ v = .float 1 false) ∧
      e = .typeError := by
  rw [terminal_error_iff, ← asBit_isSome_iff]
  cases v.asBit <;> simp

/-- `BDDNode(var, low, high)`: `TypeError` exactly when a child is not a `BDDNode`; `low is high` returns `low` -/
theorem nonTerminal_typeError_iff (x : String) (lo hi : PyVal) (e : Err) :
    nonTerminal x lo hi = .error e ↔ ((∀ l, lo ≠ .node l) ∨ (∀ h, hi ≠ .node h)) ∧ e = .typeError :=
  nonTerminal_error_iff x lo hi e

theorem nonTerminal_low_is_high (x : String) (t : NBDD) : nonTerminal x (.node t) (.node t) = .ok t :=
  nonTerminal_same x t

/-! ### `OBDD(node, ordering)` -/

/-- **succeeds exactly when the list has no repetition, mentions every variable of the diagram, and the diagram is
    ordered** -/
theorem obdd_init_ok_iff (t : NBDD) (l : List String) (o : OBDDv) :
    OBDDv.init (.val (.node t)) (.list l) true = .ok o ↔
      l.Nodup ∧ (∀ v ∈ t.vars, v ∈ l) ∧ PMC.BDD.Ord 0 (t.toPos l) ∧ o = ⟨t, some l⟩ := init_node_ok_iff t l o

/-- `ValueError` exactly when `respect_ordering` answers `False` -/
theorem obdd_init_valueError_iff (t : NBDD) (l : List String) :
    OBDDv.init (.val (.node t)) (.list l) true = .error .valueError ↔ l.Nodup ∧ respect l t = .ok false :=
  init_node_valueError_iff t l

/-- `RuntimeError` exactly when the list repeats a variable or the first defect of the diagram is a variable that is
    not in the list -/
theorem obdd_init_runtimeError_iff (t : NBDD) (l : List String) :
    OBDDv.init (.val (.node t)) (.list l) true = .error .runtimeError ↔
      ¬ l.Nodup ∨ ∃ w, (defects l t).head? = some (.foreign w) :=
  init_node_runtimeError_iff t l

/-- … in particular when the ROOT variable is not in the list -/
theorem obdd_init_root_runtimeError (t : NBDD) (l : List String) (h : ¬ rootIn l t) :
    OBDDv.init (.val (.node t)) (.list l) true = .error .runtimeError := init_node_root_runtimeError t l h

/-- **a variable of the diagram that is not in the list: `RuntimeError`, or `ValueError` when an edge that does not go
    forward is met first; never accepted** -/
theorem obdd_init_foreign (t : NBDD) (l : List String) (hf : ∃ v ∈ t.vars, v ∉ l) :
    OBDDv.init (.val (.node t)) (.list l) true = .error .runtimeError ∨
      OBDDv.init (.val (.node t)) (.list l) true = .error .valueError := init_node_foreign t l hf

/-- these are all the exception classes (no `KeyError` any more, no `TypeError` for a node and a list of names) -/
theorem obdd_init_error_classes (t : NBDD) (l : List String) (check : Bool) (e : Err)
    (h : OBDDv.init (.val (.node t)) (.list l) check = .error e) :
    e = .runtimeError ∨ e = .valueError := init_node_error_classes t l check e h

/-- `TypeError` for a `bfunct` that is neither a node nor a `str` (unless the list is rejected first) -/
theorem obdd_init_typeError (v : PyVal) (hn : ∀ t, v ≠ .node t) (hs : ∀ s, v ≠ .str s) (oa : OrdArg) (check : Bool) :
    OBDDv.init (.val v) oa check = .error .typeError ∨
      (∃ l, oa = .list l ∧ ¬ l.Nodup ∧ OBDDv.init (.val v) oa check = .error .runtimeError) :=
  init_other_typeError v hn hs oa check

/-- FINDING (minor): an `ordering` that is neither a list nor an `Ordering` (e.g. `5`, a `str`) does NOT raise the
    documented `TypeError`: it is replaced by `None`, and `OBDD(BDDNode(1), 5)` is accepted -/
theorem obdd_init_bad_ordering_accepted (b : Bool) :
    OBDDv.init (.val (.node (.leaf b))) .other true = .ok ⟨.leaf b, none⟩ := by
  simp [init_other_ordering]

/-! ### `==` -/

theorem obdd_eq_obdd (self B : OBDDv) (h1 : self.WF) (h2 : B.WF) : self.eq (.obdd B) = .ok true ↔ self = B := by
  rw [OBDDv.eq_obdd, Except.ok.injEq, OBDDv.same_iff self B h1 h2]

theorem obdd_eq_node (self : OBDDv) (O : List String) (hO : self.ordering = some O) (t : NBDD) :
    self.eq (.node t) =
      match respect O t with
      | .ok true => .ok (decide (self.root = t))
      | .ok false => .error .valueError
      | .error e => .error e := OBDDv.eq_node self O hO t

theorem obdd_eq_bit (self : OBDDv) (O : List String) (hO : self.ordering = some O) (A : PyVal) (b : Bool)
    (hA : A.asBit = some b) : self.eq A = .ok (decide (self.root = .leaf b)) := OBDDv.eq_bit self O hO A b hA

/-- the exceptions of `obdd == node` for a hand-built node: `RuntimeError` (a variable of the node is not in the
    ordering) or `ValueError` (`respect_ordering` answered `False`) -/
theorem obdd_eq_node_error (self : OBDDv) (O : List String) (hO : self.ordering = some O) (t : NBDD) (e : Err)
    (h : self.eq (.node t) = .error e) :
    (e = .runtimeError ∧ ∃ v ∈ t.vars, v ∉ O) ∨ (e = .valueError ∧ respect O t = .ok false) :=
  OBDDv.eq_node_error self O hO t e h

/-- `TypeError` exactly for the operands that are neither a node, nor an OBDD, nor one of 0, 1, False, True -/
theorem obdd_eq_typeError_iff (self : OBDDv) (O : List String) (hO : self.ordering = some O) (A : PyVal) :
    self.eq A = .error .typeError ↔ (∀ t, A ≠ .node t) ∧ (∀ B, A ≠ .obdd B) ∧ A.asBit = none :=
  OBDDv.eq_typeError_iff self O hO A

/-! ### `restrict`, `variables`, `&|^` -/

/-- `restrict(var, value)`: `TypeError` exactly when `var` is not a `str` or `value` is not 0, 1, False or True -/
theorem obdd_restrict_typeError_iff (self : OBDDv) (O : List String) (hO : self.ordering = some O) (var value : PyVal) :
    self.restrict var value = .error .typeError ↔
      (∀ x, var ≠ .str x) ∨ ¬ (value = .int 0 ∨ value = .int 1 ∨ ∃ b, value = .bool b) := by
  rw [OBDDv.restrict_typeError_iff self O hO, ← OBDDv.asBoolArg_isSome_iff]
  cases value.asBoolArg <;> simp

/-- on an OBDD that respects its ordering `restrict` never raises — not even for a variable outside the ordering —
    and the result respects the ordering -/
theorem obdd_restrict_ok (self : OBDDv) (O : List String) (hO : self.ordering = some O)
    (hr : respect O self.root = .ok true) (x : String) (value : PyVal) (b : Bool) (hv : value.asBoolArg = some b) :
    self.restrict (.str x) value = .ok ⟨self.root.restrict x b, some O⟩ ∧
      respect O (self.root.restrict x b) = .ok true := OBDDv.restrict_ok self O hO hr x value b hv

/-- the named `restrict` is the positional one of C17.lean (`restrict_spec`: the cofactor) -/
theorem obdd_restrict_positional (O : List String) (x : String) (i : Nat) (hx : position O x = some i) (val : Bool)
    (t : NBDD) (ht : ∀ v ∈ t.vars, v ∈ O) : toPos O (t.restrict x val) = PMC.BDD.restrict i val (toPos O t) :=
  toPos_restrict O x i hx val t ht

/-- a variable the (reduced) diagram does not mention: `restrict` returns the diagram itself -/
theorem obdd_restrict_foreign (x : String) (val : Bool) (t : NBDD) (hx : x ∉ t.vars) (hr : t.Reduced) :
    t.restrict x val = t := restrict_foreign x val t hx hr

/-- `variables()`: the names of the support of the positional diagram -/
theorem obdd_variables (self : OBDDv) (O : List String) :
    support (toPos O self.root) = self.variables.map (fun v => (position O v).getD O.length) :=
  OBDDv.variables_support self O

/-- `f & g` …: `TypeError` unless the right operand is an OBDD -/
theorem obdd_apply_typeError (op : Bool → Bool → Bool) (self : OBDDv) (B : PyVal) (h : ∀ b, B ≠ .obdd b) :
    OBDDv.apply op self B = .error .typeError := apply_typeError op self B h

/-- **combining OBDDs with different orderings raises `RuntimeError`** -/
theorem obdd_apply_different_orderings (op : Bool → Bool → Bool) (self b : OBDDv) (h1 : self.WF) (h2 : b.WF)
    (h : self.ordering ≠ b.ordering) : OBDDv.apply op self (.obdd b) = .error .runtimeError :=
  apply_runtimeError op self b h1 h2 h

/-- with the same ordering, respected by both roots: no exception (a terminal holds a `bool`, on which no operator
    raises), and the result is the positional `applyOp` (of which C17.lean proves `and_spec`, `or_spec`, `xor_spec`) -/
theorem obdd_apply_ok (op : Bool → Bool → Bool) (self b : OBDDv) (O : List String)
    (h1 : self.ordering = some O) (h2 : b.ordering = some O) (r1 : respect O self.root = .ok true)
    (r2 : respect O b.root = .ok true) :
    ∃ t, OBDDv.apply op self (.obdd b) = .ok ⟨t, some O⟩ ∧
      toPos O t = applyOp op (toPos O self.root) (toPos O b.root) ∧ respect O t = .ok true :=
  apply_ok op self b O h1 h2 r1 r2

/-- **the exceptions of `f & g`, `f | g`, `f ^ g` between two OBDDs (the left one holding a `ListOrdering`)**: nothing
    but `RuntimeError`, and only because the orderings differ or a root mentions a variable outside the ordering -/
theorem obdd_apply_error (op : Bool → Bool → Bool) (self b : OBDDv) (O : List String) (hO : self.ordering = some O)
    (e : Err) (h : OBDDv.apply op self (.obdd b) = .error e) :
    e = .runtimeError ∧
      (OBDDv.ordEq self.ordering b.ordering = false ∨ ∃ v, (v ∈ self.root.vars ∨ v ∈ b.root.vars) ∧ v ∉ O) :=
  apply_error op self b O hO e h

/-- equal orderings containing every variable of the two roots: nothing is raised, ordered roots or not -/
theorem obdd_apply_no_error (op : Bool → Bool → Bool) (self b : OBDDv) (O : List String) (h1 : self.ordering = some O)
    (h2 : b.ordering = some O) (v1 : ∀ v ∈ self.root.vars, v ∈ O) (v2 : ∀ v ∈ b.root.vars, v ∈ O) :
    ∃ t, OBDDv.apply op self (.obdd b) = .ok ⟨t, some O⟩ := apply_no_error op self b O h1 h2 v1 v2

/-- REPAIRED (`^` used to raise `TypeError`, `bool ^ float`, after `BDDNode(1.0)` had been the first request for
    terminal 1): on two terminals the operator is applied to the two `bool`s they hold; nothing is raised -/
theorem obdd_xor_terminals (O : List String) (a b : Bool) :
    OBDDv.apply (fun x y => x != y) ⟨.leaf a, some O⟩ (.obdd ⟨.leaf b, some O⟩) = .ok ⟨.leaf (a != b), some O⟩ :=
  xor_terminals O a b

theorem compute_terminals (op : Bool → Bool → Bool) (O : Option (List String)) (n : Nat) (a b : Bool) :
    NBDD.apply op O (n + 1) (.leaf a) (.leaf b) = .ok (.leaf (op a b)) := napply_terminals op O n a b

/-! ### the guard of C17 for a variable outside the ordering -/

/-- **HEADLINE**: for a diagram / operand that mentions a variable outside the ordering `O`,
    * `OBDD(node, O)` raises `RuntimeError`, or `ValueError` (the "does not respect" branch) when an edge that does not
      go forward is met first — and never succeeds;
    * `obdd == node` raises only `RuntimeError` or `ValueError`;
    * `obdd & B`, `obdd | B`, `obdd ^ B` for an OBDD `B` raise nothing but `RuntimeError`.
    No other exception class (`KeyError`, `TypeError`, …) can arise. -/
theorem foreign_variable_error_classes (O : List String) :
    (∀ t : NBDD, (∃ v ∈ t.vars, v ∉ O) →
        OBDDv.init (.val (.node t)) (.list O) true = .error .runtimeError ∨
        OBDDv.init (.val (.node t)) (.list O) true = .error .valueError) ∧
    (∀ (t : NBDD) (check : Bool) (e : Err), OBDDv.init (.val (.node t)) (.list O) check = .error e →
        e = .runtimeError ∨ e = .valueError) ∧
    (∀ (self : OBDDv) (t : NBDD) (e : Err), self.ordering = some O → self.eq (.node t) = .error e →
        e = .runtimeError ∨ e = .valueError) ∧
    (∀ (op : Bool → Bool → Bool) (self b : OBDDv) (e : Err), self.ordering = some O →
        OBDDv.apply op self (.obdd b) = .error e → e = .runtimeError) := by
  refine ⟨fun t hf => init_node_foreign t O hf, fun t check e h => init_node_error_classes t O check e h, ?_, ?_⟩
  · intro self t e hO h
    rcases OBDDv.eq_node_error self O hO t e h with ⟨he, _⟩ | ⟨he, _⟩
    · exact Or.inl he
    · exact Or.inr he
  · intro op self b e hO h
    exact (apply_error op self b O hO e h).1

#print axioms ordering_make_ok_iff
#print axioms ordering_get_list
#print axioms ordering_strict_total
#print axioms respect_ordering_true_iff
#print axioms respect_ordering_error
#print axioms respect_ordering_eq_first_defect
#print axioms respect_ordering_runtimeError_iff
#print axioms foreign_below_root_is_RuntimeError
#print axioms obdd_init_ok_iff
#print axioms obdd_init_error_classes
#print axioms obdd_eq_typeError_iff
#print axioms obdd_restrict_typeError_iff
#print axioms obdd_restrict_ok
#print axioms obdd_apply_different_orderings
#print axioms obdd_apply_ok
#print axioms obdd_apply_error
#print axioms obdd_xor_terminals
#print axioms terminal_holds_bool
#print axioms foreign_variable_error_classes
end PMC.C17
