/-
  C17 (API part) — orderings, `respect_ordering`, the guards of `OBDD(...)`, `==`, `restrict`, `variables()`, `&|^`.

  Property C17 ends with "… variables() is exactly the support reachable in the diagram; combining OBDDs with
  different orderings or a variable outside the ordering raises RuntimeError."  This file states, for the executable
  model of the public API (PMC/Model/BDDApi.lean, validated against the library by harness/checks/bdd_api.py),
  exactly when each exception class arises.

  Model: an ordering is the list of its variables; a hand-built diagram is a named tree `NBDD`; `toPos O t` is the
  positional diagram of PMC/Model/BDD.lean under `O`, about which C17.lean speaks (`Ord 0 (toPos O t)` = "respects").

  FINDING (the model follows the code, see `foreign_below_root_is_KeyError`): a variable that is not in the ordering
  raises `RuntimeError` only when it labels the ROOT of the diagram given to `respect_ordering` / `OBDD(node, ordering)`
  / `obdd == node`; anywhere below the root it surfaces as `KeyError` (from `ListOrdering.cmp`), or is not noticed at
  all when an out-of-order edge is met first (`False` / `ValueError`).
-/
import PMC.Proofs.BDDApi
namespace PMC.C17
open PMC.BDD PMC.BDD.NBDD PMC.BDD.Ordering

/-! ### `ListOrdering` -/

/-- `ListOrdering(l)` succeeds exactly on the lists without repetition, and holds the variables of `l` in order -/
theorem ordering_make_ok_iff (l O : List String) : make l = .ok O ↔ l.Nodup ∧ O = l := make_ok_iff l O

/-- … and raises `RuntimeError` (nothing else) exactly on the lists with a repetition -/
theorem ordering_make_error_iff (l : List String) (e : Err) : make l = .error e ↔ ¬ l.Nodup ∧ e = .runtimeError :=
  make_error_iff l e

/-- `ListOrdering(l).get_list() == l` -/
theorem ordering_get_list (l O : List String) (h : make l = .ok O) : getList O = l := getList_make h

/-- `x in O` -/
theorem ordering_contains_iff (O : List String) (x : String) : contains O x = true ↔ x ∈ O := contains_iff

/-- `in_order(x, y)` ⇔ `position x < position y`; `KeyError` exactly when one of them is not in the ordering -/
theorem ordering_in_order_iff (O : List String) (x y : String) :
    inOrder O x y = .ok true ↔ ∃ i j, position O x = some i ∧ position O y = some j ∧ i < j := inOrder_true_iff

theorem ordering_in_order_error_iff (O : List String) (x y : String) (e : Err) :
    inOrder O x y = .error e ↔ (x ∉ O ∨ y ∉ O) ∧ e = .keyError := inOrder_error_iff

/-- `in_order` is a strict total order on the variables of the ordering -/
theorem ordering_strict_total (O : List String) :
    (∀ x, inOrder O x x ≠ .ok true) ∧
    (∀ x y z, inOrder O x y = .ok true → inOrder O y z = .ok true → inOrder O x z = .ok true) ∧
    (∀ x y, x ∈ O → y ∈ O → x ≠ y → inOrder O x y = .ok true ∨ inOrder O y x = .ok true) :=
  ⟨inOrder_irrefl O, fun _ _ _ => inOrder_trans, fun _ _ => inOrder_total⟩

/-- two `ListOrdering`s compare equal exactly when they hold the same variables at the same positions -/
theorem ordering_eq_iff (a b : List String) (ha : a.Nodup) (hb : b.Nodup) : eqv a b = true ↔ a = b := eqv_iff ha hb

/-- … and never equal anything else (`ordering == [..]`, `ordering == None` are `False`) -/
theorem ordering_eq_other (O : List String) (hO : O.Nodup) (v : PyVal) (hv : ∀ P, v = .ordering P → P.Nodup) :
    Ordering.eqPy O v = true ↔ v = .ordering O := eqPy_true_iff O hO v hv

/-! `str(ordering)` is the `repr` of the list of names; `str(obdd)` the lambda form -/
theorem ordering_str (O : List String) (h : O.Nodup) :
    Ordering.str O = "[" ++ ", ".intercalate (O.map pyRepr) ++ "]" := str_eq O h

theorem obdd_str (self : OBDDv) (O : List String) (hO : self.ordering = some O) (hn : O.Nodup) :
    self.toStr = (if O.isEmpty then "lambda" else "lambda " ++ ",".intercalate O) ++ ": " ++ self.root.printStr :=
  OBDDv.toStr_some self O hO hn

example : Ordering.str ["a", "b"] = "['a', 'b']" := by rw [str_eq _ (by decide)]; decide
example : Ordering.str [] = "[]" := by rw [str_eq _ (by decide)]; decide
example : Ordering.str ["it's", "q\"uote"] = "[\"it's\", 'q\"uote']" := by rw [str_eq _ (by decide)]; decide
example : (⟨node "a" (leaf false) (node "b" (leaf false) (leaf true)), some ["a", "b"]⟩ : OBDDv).toStr
    = "lambda a,b: a & b" := by rw [OBDDv.toStr_some _ _ rfl (by decide)]; decide
example : (⟨leaf true, some []⟩ : OBDDv).toStr = "lambda: 1" := by rw [OBDDv.toStr_some _ _ rfl (by decide)]; decide

/-! ### `respect_ordering` (with its `checked` memo set) -/

/-- **`node.respect_ordering(O)` is `True` exactly when every variable of the diagram is in `O` and the positional
    diagram is ordered** -/
theorem respect_ordering_true_iff (O : List String) (t : NBDD) :
    respectOrdering O t = .ok true ↔ (∀ v ∈ t.vars, v ∈ O) ∧ PMC.BDD.Ord 0 (toPos O t) := by
  rw [respectOrdering_eq]; exact respect_true_iff O t

/-- `False` only for diagrams that are not ordered -/
theorem respect_ordering_false (O : List String) (t : NBDD) (h : respectOrdering O t = .ok false) :
    ¬ PMC.BDD.Ord 0 (toPos O t) := by
  rw [respectOrdering_eq] at h; exact respect_false_not_ord O t h

/-- when all the variables are in the ordering nothing is raised -/
theorem respect_ordering_total (O : List String) (t : NBDD) (h : ∀ v ∈ t.vars, v ∈ O) :
    ∃ b, respectOrdering O t = .ok b ∧ (b = true ↔ PMC.BDD.Ord 0 (toPos O t)) := by
  rw [respectOrdering_eq]; exact respect_of_vars O t h

/-- **`RuntimeError` exactly when the ROOT variable is not in the ordering** -/
theorem respect_ordering_runtimeError_iff (O : List String) (t : NBDD) :
    respectOrdering O t = .error .runtimeError ↔ ¬ rootIn O t := by
  rw [respectOrdering_eq]; exact respect_runtimeError_iff O t

/-- the only other exception is `KeyError`: the root variable is in the ordering, some other variable is not -/
theorem respect_ordering_error (O : List String) (t : NBDD) (e : Err) (h : respectOrdering O t = .error e) :
    (e = .runtimeError ∧ ¬ rootIn O t) ∨ (e = .keyError ∧ rootIn O t ∧ ∃ v ∈ t.vars, v ∉ O) := by
  rw [respectOrdering_eq] at h; exact respect_error O t e h

/-- FINDING, concrete: `BDDNode('a', 0, BDDNode('z', 0, 1)).respect_ordering(['a','b','c'])` raises `KeyError` -/
theorem foreign_below_root_is_KeyError :
    respectOrdering ["a", "b", "c"] (node "a" (leaf false) (node "z" (leaf false) (leaf true))) = .error .keyError := by
  decide

/-- … and is not noticed at all when an out-of-order edge is looked at first:
    `BDDNode('b', BDDNode('a', 0, 1), BDDNode('z', 0, 1))` answers `False` -/
theorem foreign_unnoticed :
    respectOrdering ["a", "b", "c"]
      (node "b" (node "a" (leaf false) (leaf true)) (node "z" (leaf false) (leaf true))) = .ok false := by
  decide

example : respectOrdering ["a", "b", "c"] (node "z" (leaf false) (leaf true)) = .error .runtimeError := by decide
example : respectOrdering ["a", "b", "c"] (node "a" (leaf false) (node "c" (leaf false) (leaf true))) = .ok true := by
  decide

/-! ### `BDDNode(...)` -/

/-- `BDDNode(*data)`: `RuntimeError` exactly for the arities other than 1 and 3 -/
theorem bddNode_arity (args : List PyVal) :
    BDDNode.new args = some (.error .runtimeError) ↔ args.length ≠ 1 ∧ args.length ≠ 3 := bddNode_runtimeError_iff args

/-- `BDDNode(v)` / `BDDTerminalNode(v)`: `TypeError` exactly for the values that are not `==` to one of 0, 1, False, True -/
theorem terminal_typeError_iff (v : PyVal) (e : Err) :
    terminal v = .error e ↔ ¬ (v = .int 0 ∨ v = .int 1 ∨ (∃ b, v = .bool b) ∨ v = .float 0 false ∨ v = .float 1 false) ∧
      e = .typeError := by
  rw [terminal_error_iff, ← asBit_isSome_iff]
  cases v.asBit <;> simp

/-- `BDDNode(var, low, high)`: `TypeError` exactly when a child is not a `BDDNode`; `low is high` returns `low` -/
theorem nonTerminal_typeError_iff (x : String) (lo hi : PyVal) (e : Err) :
    nonTerminal x lo hi = .error e ↔ ((∀ l, lo ≠ .node l) ∨ (∀ h, hi ≠ .node h)) ∧ e = .typeError :=
  nonTerminal_error_iff x lo hi e

theorem nonTerminal_low_is_high (x : String) (t : NBDD) : nonTerminal x (.node t) (.node t) = .ok t :=
  nonTerminal_same x t

/-! ### `OBDD(node, ordering)` -/

/-- **succeeds exactly when the list has no repetition, mentions every variable of the diagram, and the diagram is
    ordered** -/
theorem obdd_init_ok_iff (t : NBDD) (l : List String) (o : OBDDv) :
    OBDDv.init (.val (.node t)) (.list l) true = .ok o ↔
      l.Nodup ∧ (∀ v ∈ t.vars, v ∈ l) ∧ PMC.BDD.Ord 0 (t.toPos l) ∧ o = ⟨t, some l⟩ := init_node_ok_iff t l o

/-- `ValueError` exactly when `respect_ordering` answers `False` -/
theorem obdd_init_valueError_iff (t : NBDD) (l : List String) :
    OBDDv.init (.val (.node t)) (.list l) true = .error .valueError ↔ l.Nodup ∧ respect l t = .ok false :=
  init_node_valueError_iff t l

/-- `RuntimeError` exactly when the list repeats a variable or the ROOT variable is not in it -/
theorem obdd_init_runtimeError_iff (t : NBDD) (l : List String) :
    OBDDv.init (.val (.node t)) (.list l) true = .error .runtimeError ↔ ¬ l.Nodup ∨ ¬ rootIn l t :=
  init_node_runtimeError_iff t l

/-- FINDING: `KeyError` when a variable below the root is not in the ordering -/
theorem obdd_init_keyError (t : NBDD) (l : List String)
    (h : OBDDv.init (.val (.node t)) (.list l) true = .error .keyError) : rootIn l t ∧ ∃ v ∈ t.vars, v ∉ l :=
  init_node_keyError t l h

/-- these are all the exception classes (no `TypeError` for a node and a list of names) -/
theorem obdd_init_error_classes (t : NBDD) (l : List String) (check : Bool) (e : Err)
    (h : OBDDv.init (.val (.node t)) (.list l) check = .error e) :
    e = .runtimeError ∨ e = .valueError ∨ e = .keyError := init_node_error_classes t l check e h

/-- `TypeError` for a `bfunct` that is neither a node nor a `str` (unless the list is rejected first) -/
theorem obdd_init_typeError (v : PyVal) (hn : ∀ t, v ≠ .node t) (hs : ∀ s, v ≠ .str s) (oa : OrdArg) (check : Bool) :
    OBDDv.init (.val v) oa check = .error .typeError ∨
      (∃ l, oa = .list l ∧ ¬ l.Nodup ∧ OBDDv.init (.val v) oa check = .error .runtimeError) :=
  init_other_typeError v hn hs oa check

/-- FINDING (minor): an `ordering` that is neither a list nor an `Ordering` (e.g. `5`, a `str`) does NOT raise the
    documented `TypeError`: it is replaced by `None`, and `OBDD(BDDNode(1), 5)` is accepted -/
theorem obdd_init_bad_ordering_accepted (b : Bool) :
    OBDDv.init (.val (.node (.leaf b))) .other true = .ok ⟨.leaf b, none⟩ := by
  simp [init_other_ordering]

/-! ### `==` -/

theorem obdd_eq_obdd (self B : OBDDv) (h1 : self.WF) (h2 : B.WF) : self.eq (.obdd B) = .ok true ↔ self = B := by
  rw [OBDDv.eq_obdd, Except.ok.injEq, OBDDv.same_iff self B h1 h2]

theorem obdd_eq_node (self : OBDDv) (O : List String) (hO : self.ordering = some O) (t : NBDD) :
    self.eq (.node t) =
      match respect O t with
      | .ok true => .ok (decide (self.root = t))
      | .ok false => .error .valueError
      | .error e => .error e := OBDDv.eq_node self O hO t

theorem obdd_eq_bit (self : OBDDv) (O : List String) (hO : self.ordering = some O) (A : PyVal) (b : Bool)
    (hA : A.asBit = some b) : self.eq A = .ok (decide (self.root = .leaf b)) := OBDDv.eq_bit self O hO A b hA

/-- `TypeError` exactly for the operands that are neither a node, nor an OBDD, nor one of 0, 1, False, True -/
theorem obdd_eq_typeError_iff (self : OBDDv) (O : List String) (hO : self.ordering = some O) (A : PyVal) :
    self.eq A = .error .typeError ↔ (∀ t, A ≠ .node t) ∧ (∀ B, A ≠ .obdd B) ∧ A.asBit = none :=
  OBDDv.eq_typeError_iff self O hO A

/-! ### `restrict`, `variables`, `&|^` -/

/-- `restrict(var, value)`: `TypeError` exactly when `var` is not a `str` or `value` is not 0, 1, False or True -/
theorem obdd_restrict_typeError_iff (self : OBDDv) (O : List String) (hO : self.ordering = some O) (var value : PyVal) :
    self.restrict var value = .error .typeError ↔
      (∀ x, var ≠ .str x) ∨ ¬ (value = .int 0 ∨ value = .int 1 ∨ ∃ b, value = .bool b) := by
  rw [OBDDv.restrict_typeError_iff self O hO, ← OBDDv.asBoolArg_isSome_iff]
  cases value.asBoolArg <;> simp

/-- on an OBDD that respects its ordering `restrict` never raises — not even for a variable outside the ordering —
    and the result respects the ordering -/
theorem obdd_restrict_ok (self : OBDDv) (O : List String) (hO : self.ordering = some O)
    (hr : respect O self.root = .ok true) (x : String) (value : PyVal) (b : Bool) (hv : value.asBoolArg = some b) :
    self.restrict (.str x) value = .ok ⟨self.root.restrict x b, some O⟩ ∧
      respect O (self.root.restrict x b) = .ok true := OBDDv.restrict_ok self O hO hr x value b hv

/-- the named `restrict` is the positional one of C17.lean (`restrict_spec`: the cofactor) -/
theorem obdd_restrict_positional (O : List String) (x : String) (i : Nat) (hx : position O x = some i) (val : Bool)
    (t : NBDD) (ht : ∀ v ∈ t.vars, v ∈ O) : toPos O (t.restrict x val) = PMC.BDD.restrict i val (toPos O t) :=
  toPos_restrict O x i hx val t ht

/-- a variable the (reduced) diagram does not mention: `restrict` returns the diagram itself -/
theorem obdd_restrict_foreign (x : String) (val : Bool) (t : NBDD) (hx : x ∉ t.vars) (hr : t.Reduced) :
    t.restrict x val = t := restrict_foreign x val t hx hr

/-- `variables()`: the names of the support of the positional diagram -/
theorem obdd_variables (self : OBDDv) (O : List String) :
    support (toPos O self.root) = self.variables.map (fun v => (position O v).getD O.length) :=
  OBDDv.variables_support self O

/-- `f & g` …: `TypeError` unless the right operand is an OBDD -/
theorem obdd_apply_typeError (op bad : Bool → Bool → Bool) (self : OBDDv) (B : PyVal) (h : ∀ b, B ≠ .obdd b) :
    OBDDv.apply op bad self B = .error .typeError := apply_typeError op bad self B h

/-- **combining OBDDs with different orderings raises `RuntimeError`** -/
theorem obdd_apply_different_orderings (op bad : Bool → Bool → Bool) (self b : OBDDv) (h1 : self.WF) (h2 : b.WF)
    (h : self.ordering ≠ b.ordering) : OBDDv.apply op bad self (.obdd b) = .error .runtimeError :=
  apply_runtimeError op bad self b h1 h2 h

/-- with the same ordering, respected by both roots, and terminals that hold `int` / `bool` values (`T.xorBad` is
    then `false` everywhere, `xorBad_false_iff`): no exception, and the result is the positional `applyOp` (of which
    C17.lean proves `and_spec`, `or_spec`, `xor_spec`) -/
theorem obdd_apply_ok (op bad : Bool → Bool → Bool) (hbad : ∀ x y, bad x y = false) (self b : OBDDv) (O : List String)
    (h1 : self.ordering = some O) (h2 : b.ordering = some O) (r1 : respect O self.root = .ok true)
    (r2 : respect O b.root = .ok true) :
    ∃ t, OBDDv.apply op bad self (.obdd b) = .ok ⟨t, some O⟩ ∧
      toPos O t = applyOp op (toPos O self.root) (toPos O b.root) ∧ respect O t = .ok true :=
  apply_ok op bad hbad self b O h1 h2 r1 r2

/-- FINDING: `BDDTerminalNode.Tnodes` is keyed by value and `1.0 == 1`: if the first request for a terminal is made
    with a float (`BDDNode(1.0)`, or the constant `1.0` in a parsed expression), the node holds the float for the rest
    of the process and `f ^ g` raises `TypeError` (`bool ^ float`) whenever the recursion reaches that terminal -/
theorem obdd_xor_float_terminal (T : TermVals) (O : List String) (a b : Bool)
    (h : T.isFloat a = true ∨ T.isFloat b = true) :
    OBDDv.apply (fun x y => x != y) T.xorBad ⟨.leaf a, some O⟩ (.obdd ⟨.leaf b, some O⟩) = .error .typeError :=
  xor_float_typeError T O a b h

theorem no_float_terminal_no_raise (T : TermVals) :
    (∀ a b, T.xorBad a b = false) ↔ T.isFloat false = false ∧ T.isFloat true = false := xorBad_false_iff T

#print axioms ordering_make_ok_iff
#print axioms ordering_get_list
#print axioms ordering_strict_total
#print axioms respect_ordering_true_iff
#print axioms respect_ordering_error
#print axioms foreign_below_root_is_KeyError
#print axioms obdd_init_ok_iff
#print axioms obdd_init_error_classes
#print axioms obdd_eq_typeError_iff
#print axioms obdd_restrict_typeError_iff
#print axioms obdd_restrict_ok
#print axioms obdd_apply_different_orderings
#print axioms obdd_apply_ok
#print axioms obdd_xor_float_terminal
end PMC.C17
