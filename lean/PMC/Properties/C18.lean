/-
  C18 — Expression and lambda notation build the same OBDD; printing round-trips.

  Model: `BExp` is the `ast` tree handed to `parse_binary_expr` (`&`, `|`, `~`, `and`, `or`, `not`, names, constants,
  anything else = `bad`); variables are positions in the ordering (`none` = a name missing from the ordering / the
  lambda's argument list).  The lambda form and the (expression, ordering) form call the same `parse_binary_expr`
  with the ordering built from the argument list, so they are the same `build` in the model; that `ast.parse` yields
  the tree we think it does is validated by the correspondence check.  `printExp` is the `ast` tree of `__str__`'s
  output under Python's precedences.
-/
import PMC.Proofs.BDDOps
namespace PMC.C18
open PMC.BDD PMC.BDD.BDD

/-- a successful build denotes the expression and is reduced and ordered -/
theorem build_spec (e : BExp) (t : BDD) (h : build e = .ok t) :
    (∀ ρ, denote t ρ = evalB ρ e) ∧ PMC.BDD.Ord 0 t ∧ Reduced t :=
  PMC.BDD.build_spec e t h

/-- well-formed expressions always build; a missing variable or non-Boolean syntax never does -/
theorem build_ok_iff (e : BExp) : (∃ t, build e = .ok t) ↔ BExp.ok e = true :=
  PMC.BDD.build_ok_iff e

/-- two expressions denoting the same function build the identical diagram (e.g. `and`/`or`/`not` vs `&`/`|`/`~`) -/
theorem build_congr (e1 e2 : BExp) (t1 t2 : BDD) (h1 : build e1 = .ok t1) (h2 : build e2 = .ok t2)
    (heq : ∀ ρ, evalB ρ e1 = evalB ρ e2) : t1 = t2 := by
  obtain ⟨d1, o1, r1⟩ := PMC.BDD.build_spec e1 t1 h1
  obtain ⟨d2, o2, r2⟩ := PMC.BDD.build_spec e2 t2 h2
  exact canonical _ t1 t2 0 0 (Nat.le_refl _) o1 o2 r1 r2 (fun ρ => by rw [d1, d2, heq])

/-- the printed form denotes the diagram's function -/
theorem printExp_denote (t : BDD) (ρ : Nat → Bool) : evalB ρ (printExp t) = denote t ρ :=
  PMC.BDD.printExp_denote t ρ

/-- `OBDD(str(o.root), o.ordering) == o` -/
theorem print_roundtrip (t : BDD) (ho : PMC.BDD.Ord 0 t) (hr : Reduced t) : build (printExp t) = .ok t :=
  build_printExp t ho hr

/-! non-vacuity -/
example : build (.bor (.band (.var (some 0)) (.not (.var (some 1)))) (.and [.var (some 1), .const true]))
    = .ok (node 0 (node 1 (leaf false) (leaf true)) (leaf true)) := by decide
example : build (.band (.var none) .bad) = .error .runtimeError := by decide
example : build (.band .bad (.var none)) = .error .syntaxError := by decide

#print axioms build_spec
#print axioms print_roundtrip
end PMC.C18
