/-
  C19 — every well-formed query returns a set of the structure's own states, and no partial operation inside the
  checkers can fail.

  For every total Kripke structure and every formula of the called logic, modelcheck returns (never raises an
  internal error such as KeyError, AttributeError, RecursionError or RuntimeError) an object that is a set and
  contains only states of K.  This includes structures whose states are strings, tuples or mixed types (the theorems
  are polymorphic in the state type `σ`, which only needs decidable equality), whose labels contain non-string values
  or names that look like operators, and formulas whose atoms do not occur in K (there is no hypothesis on the atoms
  of the formula or on the labels of the structure — in particular `ctls_ok` does NOT need `CTLS.namesOK`).

  Part 1 (`ctl_ok`, `ltl_ok`, `ctls_ok`): the three entry points return `.ok R` with `R ⊆ K.states`.

  Part 2 (verification conditions): the model calls the *total* functions `Graph.reachFromFn` / `SCC.sccs`; the Python
  code calls the *partial* operations `DiGraph.get_reachable_set_from` (RuntimeError when a start node is not a node
  of the graph, model: `Graph.reachFrom : Except Err _`), `next(iter(scc))` (StopIteration on an empty component) and
  `state_dict[s]` (KeyError when a state carries no tableau atom).  The theorems below show that at every call site
  the precondition of the partial operation holds, so the `Except`-valued operation returns `.ok` of exactly the
  value the total model uses:
    * `checkEU_vc`  — `_checkEU`: `subgraph.get_reachable_set_from(Lphi[1])`;
    * `checkEG_vc`, `checkEG_scc_nonempty` — `_checkEG`: `next(iter(scc))`, `subgraph.get_reachable_set_from(T)`;
    * `ltl_atoms_cover`, `ltl_scc_nonempty`, `ltl_seeds_atoms` — `Tableau.__init__` / `_checkE_path_formula`.
  (`PMC/Model/Safety.lean` names the graphs handed to these operations; `checkEU_eq` / `checkEG_eq` / `checkE_eq`
  show by `rfl` that they are the ones the model computes with.)
-/
import PMC.Proofs.Safety
namespace PMC.C19
open PMC
variable {σ : Type} [DecidableEq σ]

/-! ### Part 1: the entry points return a set of states of `K` -/

/-- `CTL.modelcheck` on a CTL state formula: an answer, made of states of `K` -/
theorem ctl_ok (K : Kripke σ) (hK : K.WF) (f : Fm) (hf : f.isCTLState = true) :
    ∃ R, CTL.modelcheck K f = .ok R ∧ ∀ s ∈ R, s ∈ K.states :=
  ⟨CTL.check K f, C01.modelcheck_ok K f hf, fun s hs => C01.ctl_subset K hK f hf s hs⟩

/-- `LTL.modelcheck` on `A g`, `g` quantifier-free: an answer, made of states of `K` -/
theorem ltl_ok (K : Kripke σ) (hK : K.WF) (g : Fm) (hg : g.isLTLPath = true) :
    ∃ R, LTL.modelcheck K (.A g) = .ok R ∧ ∀ s ∈ R, s ∈ K.states := by
  obtain ⟨R, hR, hex⟩ := C02.ltl_exact K hK g hg
  exact ⟨R, hR, fun s hs => ((hex s).mp hs).1⟩

/-- `CTLS.modelcheck` on a CTL* state formula: an answer, made of states of `K` — whatever the labels of `K` and the
    atoms of `f` are (no `namesOK`): the answer is `CTL.check` on a relabelled copy with the same states -/
theorem ctls_ok (K : Kripke σ) (hK : K.WF) (f : Fm) (hf : f.isCTLSState = true) :
    ∃ R, CTLS.modelcheck K f = .ok R ∧ ∀ s ∈ R, s ∈ K.states := by
  have hc : (CTLS.removeState K f).2.isCTLState = true := by rw [CTLS.removeState_isCTLState, hf]
  refine ⟨CTL.check (CTLS.removeState K f).1 (CTLS.removeState K f).2, C01.modelcheck_ok _ _ hc, ?_⟩
  intro s hs
  rw [← CTLS.removeState_states K f]
  exact CTL.check_subset _ (CTLS.removeState_wf K hK f) _ hc s hs

/-- the answers of the inner LTL calls of the CTL* checker are never the `[]` default of `CTLS.ltlStates`:
    on a quantifier-free operand the LTL checker answers -/
theorem ctls_inner_ltl_ok (K : Kripke σ) (hK : K.WF) (g : Fm) (hg : g.isLTLPath = true) :
    LTL.modelcheck K (.A g) = .ok (CTLS.ltlStates K g) := by
  obtain ⟨R, hR, _⟩ := ltl_ok K hK g hg
  simp [CTLS.ltlStates, hR]

/-! ### Part 2: verification conditions of the partial operations -/

/-- the model's `_checkEU` is the reachability routine on `euGraph` from `L1` -/
theorem checkEU_eq (K : Kripke σ) (L0 L1 : List σ) :
    CTL.checkEU K L0 L1 = Graph.reachFromFn (CTL.euGraph K L0 L1).next (CTL.euGraph K L0 L1).nodes L1 := rfl

/-- the model's `_checkEG` is the reachability routine on `egGraph` from `egSeeds` -/
theorem checkEG_eq (K : Kripke σ) (L : List σ) :
    CTL.checkEG K L =
      Graph.reachFromFn (CTL.egGraph K L).next (CTL.egGraph K L).nodes (CTL.egSeeds K L) := rfl

/-- every element of `L1` is a node of the graph `_checkEU` builds (the "add missing nodes" loop) -/
theorem checkEU_seeds_nodes (K : Kripke σ) (L0 L1 : List σ) : ∀ x ∈ L1, x ∈ (CTL.euGraph K L0 L1).nodes :=
  (CTL.euGraph_spec K L0 L1).2

/-- `get_reachable_set_from` never raises in `_checkEU` -/
theorem checkEU_vc (K : Kripke σ) (L0 L1 : List σ) (_h1 : ∀ x ∈ L1, x ∈ K.states) :
    (CTL.euGraph K L0 L1).reachFrom L1 = .ok (CTL.checkEU K L0 L1) :=
  CTL.reachFrom_ok _ _ (CTL.euGraph_spec K L0 L1).2

/-- `get_reachable_set_from` never raises in `_checkEG` -/
theorem checkEG_vc (K : Kripke σ) (L : List σ) :
    (CTL.egGraph K L).reachFrom (CTL.egSeeds K L) = .ok (CTL.checkEG K L) :=
  CTL.reachFrom_ok _ _ (CTL.egSeeds_nodes K L)

/-- `next(iter(scc))` never raises `StopIteration` in `_checkEG` -/
theorem checkEG_scc_nonempty (K : Kripke σ) (L : List σ) : ∀ C ∈ (CTL.egGraph K L).sccs, C ≠ [] :=
  SCC.sccs_nonempty _ _

/-- `compute_SCCs` never yields an empty component, on any graph -/
theorem scc_nonempty (g : Graph σ) : ∀ C ∈ g.sccs, C ≠ [] := SCC.sccs_nonempty _ _

omit [DecidableEq σ] in
/-- every state carries a tableau atom: `state_dict[s]` / `state_dict[d]` never raise `KeyError` -/
theorem ltl_atoms_cover (K : Kripke σ) (g : LTL.RFm) : ∀ s ∈ K.states, ∃ a ∈ LTL.atoms K g, a.1 = s :=
  LTL.atoms_cover K g

/-- the model's `_checkE_path_formula` works on the components `tableauSccs` -/
theorem checkE_eq (K : Kripke σ) (g : LTL.RFm) :
    LTL.checkE K g =
      ((Graph.reachFromFn (LTL.tprev K g) (LTL.atoms K g)
          ((LTL.tableauSccs K g).filter (LTL.ntsf K g)).flatten).filter (fun a => LTL.holdsB K a g)).map Prod.fst :=
  rfl

/-- `next(iter(C))` in `_is_non_trivial_self_fulfilling` never raises -/
theorem ltl_scc_nonempty (K : Kripke σ) (g : LTL.RFm) : ∀ C ∈ LTL.tableauSccs K g, C ≠ [] :=
  SCC.sccs_nonempty _ _

/-- the start nodes of the backward reachability of `_checkE_path_formula` are atoms of the tableau -/
theorem ltl_seeds_atoms (K : Kripke σ) (g : LTL.RFm) :
    ∀ a ∈ ((LTL.tableauSccs K g).filter (LTL.ntsf K g)).flatten, a ∈ LTL.atoms K g := by
  intro a ha
  have hcl : ∀ x ∈ LTL.atoms K g, ∀ w ∈ LTL.tnext K g x, w ∈ LTL.atoms K g :=
    fun _ _ w hw => (List.mem_filter.mp hw).1
  obtain ⟨_, hmem, _⟩ := SCC.sccs_correct (LTL.atoms K g) (next := LTL.tnext K g) hcl
  obtain ⟨C, hCf, haC⟩ := List.mem_flatten.mp ha
  exact (hmem a).mp (List.mem_flatten.mpr ⟨C, (List.mem_filter.mp hCf).1, haC⟩)

/-! ### non-vacuity: states are strings, one label looks like an operator, atoms of the formulas label nothing -/

def Ks : Kripke String :=
  { states := ["a", "b"],
    succ := fun s => if s = "a" then ["a", "b"] else ["a"],
    lab := fun s => if s = "a" then ["p", "and"] else ["A"] }

example : Ks.WF := by
  refine ⟨?_, ?_, ?_⟩ <;> simp [Ks]

-- "ghost" labels nothing
example : CTL.modelcheck Ks (.E (.U (.ap "p") (.ap "ghost"))) = .ok [] := by decide +kernel
example : CTL.modelcheck Ks (.A (.G (.not (.ap "ghost")))) = .ok ["a", "b"] := by decide +kernel
example : CTL.modelcheck Ks (.E (.G (.ap "and"))) = .ok ["a"] := by decide +kernel
example : LTL.modelcheck Ks (.A (.G (.F (.not (.ap "ghost"))))) = .ok ["a", "b"] := by decide +kernel
example : LTL.modelcheck Ks (.A (.F (.ap "ghost"))) = .ok [] := by decide +kernel
example : CTLS.modelcheck Ks (.A (.G (.E (.F (.X (.ap "ghost")))))) = .ok [] := by decide +kernel
example : CTLS.modelcheck Ks (.E (.and [.G (.F (.ap "p")), .G (.F (.ap "A"))])) = .ok ["a", "b"] := by
  decide +kernel

-- the partial graph operations at the call sites
example : (CTL.euGraph Ks ["a"] ["b"]).reachFrom ["b"] = .ok (CTL.checkEU Ks ["a"] ["b"]) :=
  checkEU_vc Ks ["a"] ["b"] (by simp [Ks])
example : CTL.checkEU Ks ["a"] ["b"] = ["a", "b"] := by decide +kernel
-- a seed outside the `L0`-subgraph: the "add missing nodes" loop is what makes the call safe
example : (CTL.euGraph Ks [] ["b"]).nodes = ["b"] := by decide +kernel
example : (CTL.egGraph Ks ["a"]).reachFrom (CTL.egSeeds Ks ["a"]) = .ok ["a"] := by decide +kernel
-- and `reachFrom` does raise when the precondition fails, so the verification conditions are not vacuous
example : (CTL.egGraph Ks ["a"]).reachFrom ["b"] = .error .runtimeError := by decide +kernel

#print axioms ctl_ok
#print axioms ltl_ok
#print axioms ctls_ok
#print axioms checkEU_vc
#print axioms checkEG_vc
#print axioms checkEG_scc_nonempty
#print axioms ltl_atoms_cover
#print axioms ltl_scc_nonempty
#print axioms ltl_seeds_atoms
end PMC.C19
