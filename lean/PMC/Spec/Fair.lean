/-
  SPEC: fairness constraints, as stated by property C15 (/verif/properties.jsonl): "A/E quantify over the paths that
  visit every set in F infinitely often; an atomic proposition p under fairness means 'p holds and a fair path starts
  here'" — the semantics of Clarke–Grumberg–Peled, "Model Checking", chapter on fairness.  The package's own
  documentation is thinner and partly different: doc/source/model_checking.rst speaks of ONE set of fair states each of
  which recurs infinitely often, the docstrings say "F: a list of fair states", and `Kripke.get_fair_states` treats F as
  a container of constraint SETS (`set(scc) & P` for P in F).  This file follows C15 and the code's data shape (a list
  of sets); it is C15's reading that the theorems of C15.lean refute for the implementation.

  A fairness constraint is a set of states; `F` is a finite list of them.  A path is *fair* w.r.t. `F` when it
  visits every set of `F` infinitely often.  `FairState K F s`: some fair path starts in `s`.

  `satF K F` is the fair semantics  K, πⁱ ⊨_F f  of CTL* (of which CTL and LTL are fragments):
    * the path quantifiers `A` / `E` range over the *fair* paths only;
    * CGP: "s ⊨_F p  iff  there is a fair path starting from s and p ∈ L(s)" — an atomic proposition holds at a
      position iff it labels the state there AND that state is a fair state;
    * every other clause is that of `sat` (PMC/Spec/Semantics.lean).

  Choice for the Boolean constants.  CGP's syntax has no constants: `true` is an atomic proposition that labels every
  state (and `false` one that labels none).  We follow that reading literally: `true` holds exactly at the fair
  states, `false` nowhere.  This is also what the implementation intends (`Bool` is a subclass of
  `AtomicProposition`, so `true` is rewritten into `true and fair`).  The two readings of `true` ("everywhere" /
  "at the fair states") differ only in states from which no fair path starts: along a fair path every state is a
  fair state (`FairPath.suffix` in PMC/Proofs/Fair.lean), so under a path quantifier they agree.
  No algorithmic content.
-/
import PMC.Spec.Semantics
namespace PMC
variable {σ : Type}

/-- fair paths: infinite paths of `K` that visit every constraint set infinitely often -/
def FairPath (K : Kripke σ) (F : List (List σ)) (π : Nat → σ) : Prop :=
  IsPath K π ∧ ∀ P ∈ F, ∀ n, ∃ m, n ≤ m ∧ π m ∈ P

/-- some fair path starts in `s` -/
def FairState (K : Kripke σ) (F : List (List σ)) (s : σ) : Prop :=
  ∃ π, FairPath K F π ∧ π 0 = s

/-- K, πⁱ ⊨_F f -/
def satF (K : Kripke σ) (F : List (List σ)) : Fm → (Nat → σ) → Nat → Prop
  | .tt, π, i => FairState K F (π i)
  | .ff, _, _ => False
  | .ap n, π, i => n ∈ K.lab (π i) ∧ FairState K F (π i)
  | .not f, π, i => ¬ satF K F f π i
  | .or fs, π, i => satFAny K F fs π i
  | .and fs, π, i => satFAll K F fs π i
  | .imp f g, π, i => ¬ satF K F f π i ∨ satF K F g π i
  | .X f, π, i => satF K F f π (i+1)
  | .F f, π, i => ∃ j, i ≤ j ∧ satF K F f π j
  | .G f, π, i => ∀ j, i ≤ j → satF K F f π j
  | .U f g, π, i => ∃ j, i ≤ j ∧ satF K F g π j ∧ ∀ k, i ≤ k → k < j → satF K F f π k
  | .R f g, π, i => ∀ j, i ≤ j → (∀ k, i ≤ k → k < j → ¬ satF K F f π k) → satF K F g π j
  | .A f, π, i => ∀ π', FairPath K F π' → π' 0 = π i → satF K F f π' 0
  | .E f, π, i => ∃ π', FairPath K F π' ∧ π' 0 = π i ∧ satF K F f π' 0
where
  satFAny (K : Kripke σ) (F : List (List σ)) : List Fm → (Nat → σ) → Nat → Prop
    | [], _, _ => False
    | f :: fs, π, i => satF K F f π i ∨ satFAny K F fs π i
  satFAll (K : Kripke σ) (F : List (List σ)) : List Fm → (Nat → σ) → Nat → Prop
    | [], _, _ => True
    | f :: fs, π, i => satF K F f π i ∧ satFAll K F fs π i

/-- K, s ⊨_F f for a state formula -/
def satStateF (K : Kripke σ) (F : List (List σ)) (f : Fm) (s : σ) : Prop := satF K F f (fun _ => s) 0

end PMC
