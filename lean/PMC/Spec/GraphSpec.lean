/-
  SPEC: what a well-formed `DiGraph` dict is (an invariant every graph built through the DiGraph API satisfies).
-/
import PMC.Model.Graph
import PMC.Spec.Reach
namespace PMC
namespace Graph
variable {σ : Type} [DecidableEq σ]

/-- every successor of a node is a node (keys of the dict) -/
def Closed (g : Graph σ) : Prop := ∀ x ∈ g.nodes, ∀ w ∈ g.next x, w ∈ g.nodes

/-- dict keys are unique, successor sets have no repetition, and successors are nodes -/
structure WFG (g : Graph σ) : Prop where
  nodup : g.nodes.Nodup
  succNodup : ∀ p ∈ g, p.2.Nodup
  closed : Closed g

end Graph
end PMC
