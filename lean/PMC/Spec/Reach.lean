/-
  SPEC: reachability and mutual reachability in a digraph given by its successor function.
-/
import Mathlib.Logic.Relation
namespace PMC
variable {σ : Type}

/-- `b` is a successor of `a` -/
def Edge (next : σ → List σ) (a b : σ) : Prop := b ∈ next a

/-- `b` is reachable from `a` in zero or more steps -/
abbrev Reach (next : σ → List σ) := Relation.ReflTransGen (Edge next)

end PMC
