/-
  SPEC: the documented semantics of CTL* (doc/source/logics.rst, "CTL*"), of which CTL and LTL are fragments.
  Position-indexed: `sat K f π i` is  K, πⁱ ⊨ f  (the suffix of π from position i).  A state formula only looks at
  `π i`.  No algorithmic content.
-/
import PMC.Model.Syntax
import PMC.Model.Kripke
namespace PMC
variable {σ : Type}

/-- infinite paths of K -/
def IsPath (K : Kripke σ) (π : Nat → σ) : Prop := ∀ i, π (i+1) ∈ K.succ (π i)

def sat (K : Kripke σ) : Fm → (Nat → σ) → Nat → Prop
  | .tt, _, _ => True
  | .ff, _, _ => False
  | .ap n, π, i => n ∈ K.lab (π i)
  | .not f, π, i => ¬ sat K f π i
  | .or fs, π, i => satAny K fs π i
  | .and fs, π, i => satAll K fs π i
  | .imp f g, π, i => ¬ sat K f π i ∨ sat K g π i
  | .X f, π, i => sat K f π (i+1)
  | .F f, π, i => ∃ j, i ≤ j ∧ sat K f π j
  | .G f, π, i => ∀ j, i ≤ j → sat K f π j
  | .U f g, π, i => ∃ j, i ≤ j ∧ sat K g π j ∧ ∀ k, i ≤ k → k < j → sat K f π k
  | .R f g, π, i => ∀ j, i ≤ j → (∀ k, i ≤ k → k < j → ¬ sat K f π k) → sat K g π j
  | .A f, π, i => ∀ π', IsPath K π' → π' 0 = π i → sat K f π' 0
  | .E f, π, i => ∃ π', IsPath K π' ∧ π' 0 = π i ∧ sat K f π' 0
where
  satAny (K : Kripke σ) : List Fm → (Nat → σ) → Nat → Prop
    | [], _, _ => False
    | f :: fs, π, i => sat K f π i ∨ satAny K fs π i
  satAll (K : Kripke σ) : List Fm → (Nat → σ) → Nat → Prop
    | [], _, _ => True
    | f :: fs, π, i => sat K f π i ∧ satAll K fs π i

/-- K, s ⊨ f for a state formula f: evaluate at position 0 of any sequence starting in s (the constant one) -/
def satState (K : Kripke σ) (f : Fm) (s : σ) : Prop := sat K f (fun _ => s) 0

/-- ultimately periodic sequences ("lasso" paths): a finite prefix followed by a finite loop repeated forever -/
def UltPeriodic (π : Nat → σ) : Prop := ∃ N p, 0 < p ∧ ∀ i, N ≤ i → π (i + p) = π i

end PMC
